"""Rules over the byte-conversion layer (decoders, from_slice, from_hash, to_big_endian …) — shared by C08, C13, C18.
All of them are exhaustive over the finite abstract domain (length partition x 256 first bytes)."""
from core.report import Rule
from core.lensim import LenSim, OKISH, ERRISH, Unk, array_len
from core.terms import strip, alts, walk, show
from core.sm9 import U256
from . import shared
from .shared import type_of_term, loc_of


def make_lensim(repo, closed=None):
    ls = LenSim(repo, type_of_term)
    if closed is None:
        closed, _, _ = shared.classify_u256(repo)
    red = shared.Reducer(repo, closed)
    fp = repo.fp_types()
    news = {info["new"].rec["path"]: ap for ap, info in fp.items()}

    def hook(sim, t, env):
        # Fp::new(x) is Some when x is already known reduced for the same modulus (e.g. a remainder by it)
        d = t[1].d
        if d in news and len(t[2]) == 1:
            body = env["body"]
            why = []
            if red.reduced(body, env["tb"], t[2][0], news[d], t[3], why):
                return {"Some"}
        return None
    ls.variants_hook = hook
    return ls


def reads_first_byte(body):
    for blk in body.blocks:
        for st in blk["stmts"]:
            if st["k"] == "assign":
                for op in shared_ops(st["rv"]):
                    pl = op.get("place")
                    if pl and pl["l"] == 1 and any(isinstance(e, dict) and ("idx" in e or "cidx" in e) for e in pl["p"]):
                        return True
    return False


def shared_ops(rv):
    k = rv["k"]
    if k in ("use", "repeat", "cast"):
        return [rv["op"]]
    if k == "binop":
        return [rv["a"], rv["b"]]
    if k == "unop":
        return [rv["a"]]
    if k == "aggregate":
        return rv["ops"]
    return []


def explore(ls, body):
    """{(len, byte0|None): Outcome} over the whole abstract domain of one entry point."""
    out = {}
    sp = ls.slice_param(body)
    if sp is None:
        out[(None, None)] = ls.run(body, None, None)
        return out
    b0 = reads_first_byte(body) and sp == 1
    for n in ls.length_domain(body):
        if b0 and n >= 1:
            for b in range(256):
                out[(n, b)] = ls.run(body, n, b)
        else:
            out[(n, None)] = ls.run(body, n, None)
    return out


def site_key(prop, site, kind):
    fn, bb, what = site
    return "%s:panic:%s→%s" % (prop, fn, (what or kind).split("<")[0][:80] if isinstance(what, str) else kind)


def rule_accept(prop, repo, ls, spec, cfgname):
    """spec: {fn path: {'lens': set, 'prefix': set|None}} — the (length, first byte) pairs for which success must be reachable."""
    F = repo.F
    R = Rule("R-ACCEPT[%s]" % cfgname, "acceptance set (length x first byte) of every decoder equals the format's, enumerated over the "
             "whole abstract domain", floor=len(spec), exhaustive=True)
    results = {}
    for path, sp in spec.items():
        body = F.bodies.get(path)
        if body is None:
            R.fail_closed("%s:accept:%s:anchor" % (prop, path), "entry point %s not found" % path)
            continue
        R.instance()
        ex = explore(ls, body)
        results[path] = ex
        accepted = set()
        for (n, b), o in ex.items():
            if o.variants & OKISH:
                accepted.add((n, b))
        want = set()
        for (n, b) in ex:
            if n in sp["lens"] and (sp.get("prefix") is None or b is None or b in sp["prefix"]):
                want.add((n, b))
        # a prefix-sensitive format must actually look at the prefix
        if sp.get("prefix") is not None and not any(b is not None for (_, b) in ex):
            R.violation("%s:accept:%s" % (prop, path), "%s never inspects the prefix byte: every first byte is accepted (expected %s)" %
                        (path, sorted(sp["prefix"])), body.file_line(), path)
            continue
        must = sp.get("total_lens")
        if must is not None:
            failing = sorted(((n, b) for (n, b), o in ex.items() if n in must and (o.variants & ERRISH)), key=str)
            R.check(not failing, "%s:may-reject:%s" % (prop, path),
                    "%s [%s] can return None/Err for lengths where the value must be reduced, not rejected: %s" % (path, cfgname, failing[:6]),
                    body.file_line(), path)
        extra = sorted(accepted - want, key=str)
        missing = sorted(want - accepted, key=str)
        R.check(not extra and not missing, "%s:accept:%s" % (prop, path),
                "%s [%s]: acceptance set differs from the format: over-accepts %s%s; rejects %s" %
                (path, cfgname, extra[:6], "…(%d)" % len(extra) if len(extra) > 6 else "", missing[:6]),
                body.file_line(), path,
                sample={"fn": path, "config": cfgname, "domain_points": len(ex), "accepted": sorted(accepted, key=str)[:8],
                        "lengths_sampled": sorted({n for (n, _) in ex}, key=str)})
    return R.finish(), results


def rule_total(prop, repo, ls, entries, cfgname, results=None, tolerated=None):
    """No (length, first byte) reaches a panic inside the conversion layer; every examined site is decided."""
    F = repo.F
    R = Rule("R-TOTAL[%s]" % cfgname, "no input length / first byte reaches a panic site in the conversion layer (assertions, slice "
             "primitives, unwrap/expect decided per abstract input; constant-trip loops unrolled)", floor=len(entries), exhaustive=True)
    tolerated = tolerated or {}
    for path in entries:
        body = F.bodies.get(path)
        if body is None:
            R.fail_closed("%s:total:%s:anchor" % (prop, path), "entry point %s not found" % path)
            continue
        R.instance()
        ex = (results or {}).get(path) or explore(ls, body)
        pan = {}
        unk = {}
        nsites = set()
        for (n, b), o in ex.items():
            nsites |= o.sites
            for p in o.panics:
                pan.setdefault((p[1][0], p[0], p[1][2] if isinstance(p[1][2], str) else ""), []).append((n, b, p))
            for u in o.unknown:
                unk.setdefault((u[1][0], u[0]), []).append((n, b))
        for (fn, kind, what), wit in sorted(pan.items()):
            callee = what.split("::")[-1] if what else ""
            key = "%s:panic:%s→%s" % (prop, fn, kind if kind not in ("explicit-panic",) else "panic(%s)" % callee)
            if key in tolerated:
                R.assume(key, tolerated[key])
                continue
            n, b, p = wit[0]
            fb = F.bodies.get(fn)
            R.violation(key, "panic reachable from %s: %s in %s for %d abstract input(s), e.g. %s" % (path, kind, fn, len(wit), p[2]),
                        loc_of(fb, p[1][1]) if fb else None, fn, detail={"witnesses": [(w[0], w[1]) for w in wit[:8]], "entry": path})
        for (fn, kind), wit in sorted(unk.items()):
            key = "%s:undecided:%s→%s" % (prop, fn, kind)
            if key in tolerated:
                R.assume(key, tolerated[key])
                continue
            R.violation(key, "fail-closed: site %s in %s could not be decided over the abstract domain (reached from %s)" % (kind, fn, path), fn=fn)
        if not pan and not unk:
            R.ok(sample={"entry": path, "config": cfgname, "abstract_inputs": len(ex), "sites_examined": len(nsites)})
        else:
            R.obligations += 0
    return R.finish()


def reducing_constructors(repo):
    """Total functions from a wider domain (U256 / 64 bytes) into a prime field: they necessarily reduce."""
    F = repo.F
    fp = repo.fp_types()
    out = {}
    for b in F.fn_bodies():
        ins = b.rec.get("inputs") or []
        o = b.rec.get("output")
        if o in fp and len(ins) == 1 and (ins[0] == U256 or array_len(ins[0]) is not None) and not b.impl_trait:
            out[b.rec["path"]] = o
    return out


def rule_strict(prop, repo, ls, decoders):
    """Every coordinate handed to the validated constructor comes from a range-checking constructor."""
    F = repo.F
    R = Rule("R-STRICT", "coordinates reach AffineG*::new only through strict (range-checking) byte constructors, never a reducing one",
             floor=len(decoders))
    reducing = reducing_constructors(repo)
    fp = repo.fp_types()
    strict_new = {info["new"].rec["path"] for info in fp.values()}
    for path in decoders:
        body = F.bodies.get(path)
        if body is None:
            R.fail_closed("%s:strict:%s:anchor" % (prop, path), "decoder %s not found" % path)
            continue
        tb = repo.tb(body)
        news = [(bb, t) for bb, t in body.calls() if (t.get("fn") or {}).get("res_def", "").startswith("crate::AffineG") and t["fn"]["name"] == "new"]
        if not news:
            # delegating decoder (from_uncompressed → from_slice): covered through the callee
            dele = [t for bb, t in body.calls() if (t.get("fn") or {}).get("res_def") in decoders]
            R.instance()
            R.check(bool(dele), "%s:strict:%s:shape" % (prop, path), "decoder neither builds a validated point nor delegates to one that does", body.file_line(), path,
                    sample={"decoder": path, "delegates_to": [t["fn"]["res_def"] for t in dele]})
            continue
        for bb, t in news:
            args = tb.call_args(bb)
            for ai, a in enumerate(args):
                R.instance()
                origins = byte_origins(repo, ls, body, tb, a)
                bad = []
                for (callee, L, calls) in origins:
                    hit = sorted(c for c in calls if c in reducing)
                    if hit:
                        bad.append((callee, L, hit))
                    elif not (calls & strict_new) and callee not in strict_new:
                        bad.append((callee, L, ["no range check (Fp::new) on this path"]))
                key = "%s:reducing-coordinate:%s→%s" % (prop, path, ",".join(sorted({b[0] for b in bad})) or "?")
                R.check(not bad and origins, key,
                        "coordinate %d of the validated constructor in %s is parsed by a reducing constructor: %s" % (ai, path, bad[:2]) if bad else
                        "coordinate %d of %s: no byte constructor found in its provenance" % (ai, path),
                        loc_of(body, bb), path,
                        sample={"decoder": path, "coordinate": ai, "parsed_by": [(o[0], o[1]) for o in origins]})
    return R.finish()


def byte_origins(repo, ls, body, tb, term):
    """Calls in the provenance of `term` that take a byte slice of this decoder's input: [(callee, length, reachable calls)]."""
    out = []
    seen = set()
    for sub in walk(term):
        if sub[0] != "call" or id(sub) in seen:
            continue
        seen.add(id(sub))
        d = sub[1].d
        cb = repo.F.bodies.get(d)
        if cb is None:
            continue
        sp = ls.slice_param(cb)
        if sp is None:
            continue
        summ = ls.summary(d)
        if summ is None:
            continue
        Ls = set()
        # the length of the argument may depend on our own length: take every length for which we accept
        for n in ls.length_domain(body):
            env = {"len": n, "byte0": None, "sp": ls.slice_param(body), "body": body, "tb": tb, "cur": {}}
            try:
                Ls.add(ls.length_of(sub[2][sp - 1], env))
            except Unk:
                pass
        # keep the lengths for which the decoder itself can succeed
        okl = set()
        for n in ls.length_domain(body):
            o = ls.run(body, n, None)
            if o.variants & OKISH:
                env = {"len": n, "byte0": None, "sp": ls.slice_param(body), "body": body, "tb": tb, "cur": {}}
                try:
                    okl.add(ls.length_of(sub[2][sp - 1], env))
                except Unk:
                    pass
        for L in sorted(okl or Ls):
            o = ls.lookup(summ, L)
            if o.variants & OKISH:
                out.append((d, L, set(o.calls)))
    return out


def rule_funnel(prop, repo, ls, decoders):
    F = repo.F
    R = Rule("R-FUNNEL", "every successful decoder result is built from the validated constructor AffineG*::new (or another decoder)", floor=len(decoders))
    for path in decoders:
        body = F.bodies.get(path)
        if body is None:
            R.fail_closed("%s:funnel:%s:anchor" % (prop, path), "decoder %s not found" % path)
            continue
        tb = repo.tb(body)
        R.instance()
        rv = tb.return_value()
        bad = []
        n_ok = 0
        for a in alts(rv):
            env = {"len": next(iter(sorted(decoders[path]))), "byte0": None, "sp": 1, "body": body, "tb": tb, "cur": {}}
            try:
                vs = ls.variants(a, env)
            except Unk:
                vs = {"Ok", "Err"}
            if not (vs & OKISH):
                continue
            n_ok += 1
            good = False
            for sub in walk(a):
                if sub[0] == "call":
                    d = sub[1].d
                    if (d.startswith("crate::AffineG") and sub[1].name == "new") or d in decoders:
                        good = True
            if not good:
                bad.append(show(a, maxdepth=4)[:200])
        R.check(not bad and n_ok > 0, "%s:funnel:%s" % (prop, path), "a successful result of %s is not derived from AffineG*::new: %s" % (path, bad[:1]),
                body.file_line(), path, sample={"decoder": path, "ok_alternatives": n_ok})
    # the public AffineG*::new wrappers forward to groups::AffineG::new
    for w in ("crate::AffineG1::new", "crate::AffineG2::new"):
        b = F.bodies.get(w)
        R.instance()
        if b is None:
            R.fail_closed("%s:funnel:%s:anchor" % (prop, w), "%s not found" % w)
            continue
        calls = [t["fn"].get("res_def") for _, t in b.calls() if "fn" in t]
        R.check("crate::groups::AffineG::<P>::new" in calls, "%s:funnel:%s" % (prop, w), "%s does not call groups::AffineG::new (calls %s)" % (w, calls), b.file_line(), w,
                sample={"wrapper": w, "calls": calls})
    return R.finish()


def rule_parity_decoder(prop, repo, ls, decoders):
    """The decompressor negates the root exactly when the requested parity differs from the root's parity."""
    F = repo.F
    R = Rule("R-PARITY-DEC", "compressed decoders: y is negated ⇔ (prefix is even) ≠ is_even(y) — truth table over prefix x parity", floor=len(decoders), exhaustive=True)
    for path, L in decoders.items():
        body = F.bodies.get(path)
        if body is None:
            R.fail_closed("%s:parity:%s:anchor" % (prop, path), "decoder %s not found" % path)
            continue
        R.instance()
        rows = []
        bad = []
        for b0 in (2, 3):
            for ev in (0, 1):
                ls.force = {"is_even": ev}
                try:
                    o = ls.run(body, L, b0)
                finally:
                    ls.force = None
                neg = any(c.endswith("core::ops::Neg>::neg") or c.endswith("::neg") for c in o.calls)
                want = ((b0 & 1) == 0) != bool(ev)
                rows.append({"prefix": b0, "is_even(y)": ev, "negated": neg})
                if neg != want:
                    bad.append(rows[-1])
        R.check(not bad, "%s:parity:%s" % (prop, path), "parity selection in %s differs from the format: %s" % (path, bad), body.file_line(), path,
                sample={"decoder": path, "table": rows})
    return R.finish()
