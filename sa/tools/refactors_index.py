#!/usr/bin/env python3
"""refactors_index.py: write /verif/refactors/INDEX.md from the stored behaviour-preserving refactorings and their last evaluation."""
import glob, json, os
rows = []
for d in sorted(glob.glob("/verif/refactors/*-*")):
    m = json.load(open(d + "/meta.json"))
    rows.append((os.path.basename(d), m.get("kind") or "", (m.get("summary") or "").replace("|", "/")[:170], "silent" if not m.get("checks_fired") else "FIRES " + " ".join(sorted(m["checks_fired"]))))
with open("/verif/refactors/INDEX.md", "w") as f:
    f.write("# Behaviour-preserving refactorings used as false-alarm tests\n\n")
    f.write("Produced by independent sub-agents (one source area each, no access to /verif); every one compiles and passes the 66 tests in debug and release.\n")
    f.write("`sa/tools/reeval_refactors.py --all-checks` re-runs all 17 checks against each; the last result is in the right-hand column.\n\n")
    f.write("| id | kind | what | all 17 checks |\n|---|---|---|---|\n")
    for r in rows:
        f.write("| %s | %s | %s | %s |\n" % r)
    f.write("\n%d refactorings, %d silent.\n" % (len(rows), sum(1 for r in rows if r[3] == "silent")))
print(len(rows))
