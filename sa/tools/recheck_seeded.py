#!/usr/bin/env python3
"""Re-runs every check against every stored seeded change (scratch copy of /repo + patch) and refreshes meta.json."""
import glob, json, os, shutil, subprocess, sys, tempfile
from concurrent.futures import ThreadPoolExecutor
ALL = ["C01", "C02", "C03", "C04", "C05", "C06", "C07", "C08", "C09", "C10", "C11", "C12", "C13", "C15", "C16", "C17", "C18"]
def one(d):
    mpath = os.path.join(d, "meta.json")
    meta = json.load(open(mpath))
    s = tempfile.mkdtemp(prefix="sm9seed.")
    try:
        subprocess.run(["rsync", "-a", "--exclude", "target", "--exclude", ".git", "/repo/", s + "/"], check=True)
        r = subprocess.run(["patch", "-p1", "-s", "-i", os.path.join(d, "patch.diff")], cwd=s, capture_output=True, text=True)
        if r.returncode != 0:
            meta["recheck_error"] = "patch no longer applies: " + (r.stdout + r.stderr)[:200]
            json.dump(meta, open(mpath, "w"), indent=1, ensure_ascii=False)
            return d, None
        fired = {}
        for p in ALL:
            c = subprocess.run(["/verif/check", p, "--repo", s], capture_output=True, text=True, env=dict(os.environ, SM9_CONTROL_RUN="1", SM9_CACHE_KEEP="80"))
            if c.returncode == 1:
                fired[p] = [l.strip()[:200] for l in c.stdout.splitlines() if l.startswith("  " + p + ":") or l.startswith("  eq:") or l.startswith("  R-")][:3]
            elif c.returncode != 0:
                fired[p] = ["ERROR exit %d" % c.returncode]
        meta["checks_fired"] = fired
        meta["caught"] = bool(fired)
        meta["caught_by_own_property"] = meta.get("breaks_property") in fired
        meta.pop("recheck_error", None)
        json.dump(meta, open(mpath, "w"), indent=1, ensure_ascii=False)
        return d, sorted(fired)
    finally:
        shutil.rmtree(s, ignore_errors=True)
dirs = sorted(glob.glob("/verif/seeded/*/"))
if len(sys.argv) > 1:
    dirs = [d for d in dirs if any(a in d for a in sys.argv[1:])]
with ThreadPoolExecutor(max_workers=6) as ex:
    for d, f in ex.map(one, dirs):
        print(os.path.basename(d.rstrip("/")), f)
