#!/usr/bin/env python3
"""eval_seeded.py <agent out dir> <property id> [--props C01,C02,…]

For every patch_k.diff / demo_k.rs produced by an independent sub-agent: confirm in a scratch worktree (outside /repo, /verif)
that (a) the demo passes on the clean tree, (b) with the patch the existing suite passes and the demo fails; then run the
checks against the patched scratch tree and record which fire. Confirmed changes are stored under /verif/seeded/<id>-<k>/."""
import json, os, shutil, subprocess, sys
out, prop = sys.argv[1], sys.argv[2]
TAG = os.environ.get("SEED_TAG", "")          # e.g. "r2-" for the second round
SRCBASE = os.environ.get("SEED_SRC", "/tmp/adv")
ALL = ["C01", "C02", "C03", "C04", "C05", "C06", "C07", "C08", "C09", "C10", "C11", "C12", "C13", "C15", "C16", "C17", "C18"]
WT = "/tmp/seedchk_%s%s" % (TAG.replace("-", ""), prop)
TGT = WT + "/target"
def sh(cmd, cwd=None, env=None):
    return subprocess.run(cmd, shell=True, cwd=cwd, env=env, capture_output=True, text=True)
if not os.path.exists(WT):
    sh("git -C /repo worktree add -f %s HEAD" % WT)
    shutil.copy("/repo/Cargo.lock", WT)
    src = "%s/wt_%s/target" % (SRCBASE, prop)
    if os.path.exists(src) and not os.path.exists(TGT):
        sh("cp -r %s %s" % (src, TGT))
env = dict(os.environ, CARGO_TARGET_DIR=TGT, CARGO_NET_OFFLINE="true")
def clean():
    sh("git checkout -- . && git clean -fdq -e target -e Cargo.lock", cwd=WT)
results = []
for k in (1, 2, 3):
    pf, df, mf = "%s/patch_%d.diff" % (out, k), "%s/demo_%d.rs" % (out, k), "%s/meta_%d.json" % (out, k)
    if not (os.path.exists(pf) and os.path.exists(df)):
        continue
    meta = json.load(open(mf)) if os.path.exists(mf) else {}
    rel = "--release" if meta.get("release_only") else ""
    clean()
    wiring = meta.get("demo_wiring")
    def wire():
        if wiring:
            # unit-test demo: a #[cfg(test)] module next to the private items it needs
            host = "src/pairings.rs" if "src/pairings.rs" in wiring else "src/lib.rs"
            shutil.copy(df, WT + "/src/demo_%d.rs" % k)
            with open(os.path.join(WT, host), "a") as fh:
                fh.write('\n#[cfg(test)]\n#[path = "demo_%d.rs"]\nmod demo_%d;\n' % (k, k))
            return "cargo test --offline %s --lib demo_%d 2>&1 | grep -E '^test result|panicked|error' | head -5" % (rel, k)
        os.makedirs(WT + "/tests", exist_ok=True)
        shutil.copy(df, WT + "/tests/demo_seed.rs")
        return "cargo test --offline %s --test demo_seed 2>&1 | grep -E '^test result|panicked|error' | head -5" % rel
    cmd = wire()
    r1 = sh(cmd, cwd=WT, env=env)
    demo_clean_ok = "test result: ok" in r1.stdout and "FAILED" not in r1.stdout and " 0 passed" not in r1.stdout
    clean()
    a = sh("git apply %s" % pf, cwd=WT)
    if a.returncode != 0:
        results.append({"k": k, "error": "patch does not apply: " + a.stderr[:200]}); continue
    cmd = wire()
    r2 = sh(cmd, cwd=WT, env=env)
    demo_fails = "FAILED" in r2.stdout or "panicked" in r2.stdout or "error" in r2.stdout
    # remove the demo again, keep the patch
    clean()
    sh("git apply %s" % pf, cwd=WT)
    r3 = sh("cargo test --offline 2>&1 | grep -E '^test result|FAILED|error(\\[|:)' | head -8", cwd=WT, env=env)
    suite_ok = r3.stdout.count("test result: ok") >= 3 and "FAILED" not in r3.stdout and "error" not in r3.stdout
    fired = {}
    for p in ALL:
        c = subprocess.run(["/verif/check", p, "--repo", WT], capture_output=True, text=True, env=dict(os.environ, SM9_CONTROL_RUN="1"))
        if c.returncode == 1:
            fired[p] = [l.strip()[:200] for l in c.stdout.splitlines() if l.startswith("  " + p + ":") or l.startswith("  R-")][:3]
        elif c.returncode != 0:
            fired[p] = ["ERROR exit %d: %s" % (c.returncode, (c.stdout + c.stderr)[-200:])]
    confirmed = demo_clean_ok and demo_fails and suite_ok
    rec = {"k": k, "summary": meta.get("summary"), "needs": meta.get("needs"), "confirmed": confirmed, "demo_passes_clean": demo_clean_ok, "demo_fails_with_patch": demo_fails,
           "suite_passes_with_patch": suite_ok, "release_only": bool(meta.get("release_only")), "checks_fired": fired, "caught_by_own_property": prop in fired}
    results.append(rec)
    if confirmed:
        d = "/verif/seeded/%s-%s%d" % (prop, TAG, k)
        os.makedirs(d, exist_ok=True)
        shutil.copy(pf, d + "/patch.diff")
        shutil.copy(df, d + "/demo.rs")
        json.dump({"breaks_property": prop, "summary": meta.get("summary"), "needs_to_manifest": meta.get("needs"), "source": "independent sub-agent given only the property text and a scratch worktree",
                   "confirmed_by": ["demo passes on clean tree: cargo test --offline %s --test demo_seed" % rel, "with patch: existing suite passes (3 test binaries ok), demo fails"],
                   "release_only": bool(meta.get("release_only")), "checks_fired": fired, "caught": bool(fired), "caught_by_own_property": prop in fired}, open(d + "/meta.json", "w"), indent=1, ensure_ascii=False)
    clean()
print(json.dumps(results, indent=1, ensure_ascii=False))
