#!/usr/bin/env python3
"""mut.py <props,comma> <file> <old> <new> [<file> <old> <new> ...] — apply textual edits to a scratch copy of /repo
(outside /repo and /verif), run the given checks against it, print their verdict lines, delete the copy."""
import os, shutil, subprocess, sys, tempfile
props = sys.argv[1].split(",")
edits = sys.argv[2:]
d = tempfile.mkdtemp(prefix="sm9mut.")
try:
    subprocess.run(["rsync", "-a", "--exclude", "target", "--exclude", ".git", "/repo/", d + "/"], check=True)
    for i in range(0, len(edits), 3):
        f, old, new = edits[i:i + 3]
        p = os.path.join(d, f)
        t = open(p).read()
        if old not in t:
            print("EDIT DOES NOT APPLY:", f, old[:60]); sys.exit(3)
        open(p, "w").write(t.replace(old, new, 1))
    if os.environ.get("MUT_TEST"):
        r = subprocess.run("cargo test --offline 2>&1 | grep -E '^test result|FAILED|panicked|error' | head", shell=True, cwd=d, env=dict(os.environ, CARGO_TARGET_DIR="/tmp/sm9mut-target"), capture_output=True, text=True)
        print(r.stdout)
    for p in props:
        r = subprocess.run(["/verif/check", p, "--repo", d], capture_output=True, text=True)
        lines = [l for l in r.stdout.splitlines() if l.startswith(("VIOLATION", "PASS", "KNOWN")) or ": " in l and l.startswith("  C")]
        print("== %s exit=%d" % (p, r.returncode))
        for l in lines[:8]:
            print("   " + l[:260])
        if r.returncode not in (0, 1):
            print(r.stdout[-800:], r.stderr[-800:])
finally:
    shutil.rmtree(d, ignore_errors=True)
