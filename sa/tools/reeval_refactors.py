#!/usr/bin/env python3
"""reeval_refactors.py [tag ...] [--all-checks]: re-run the checks against the stored behaviour-preserving refactorings
(/verif/refactors/<tag>/patch.diff) in parallel; by default only the checks that fired last time plus nothing else."""
import json, os, shutil, subprocess, sys, tempfile, glob
from concurrent.futures import ThreadPoolExecutor
ALL = ["C01", "C02", "C03", "C04", "C05", "C06", "C07", "C08", "C09", "C10", "C11", "C12", "C13", "C15", "C16", "C17", "C18"]
args = [a for a in sys.argv[1:] if not a.startswith("--")]
allc = "--all-checks" in sys.argv
dirs = sorted(glob.glob("/verif/refactors/*-*"))
if args:
    dirs = [d for d in dirs if any(os.path.basename(d).startswith(a) for a in args)]

def one(d):
    meta = json.load(open(d + "/meta.json"))
    props = ALL if allc else sorted(meta.get("checks_fired") or {})
    if not props:
        return d, {}, meta
    s = tempfile.mkdtemp(prefix="sm9ref.")
    try:
        subprocess.run(["rsync", "-a", "--exclude", "target", "--exclude", ".git", "/repo/", s + "/"], check=True)
        r = subprocess.run(["patch", "-p1", "-s", "-i", d + "/patch.diff"], cwd=s, capture_output=True, text=True)
        if r.returncode != 0:
            return d, {"patch": ["does not apply"]}, meta
        fired = {}
        for p in props:
            c = subprocess.run(["/verif/check", p, "--repo", s], capture_output=True, text=True, env=dict(os.environ, SM9_CONTROL_RUN="1", SM9_CACHE_KEEP="80"))
            if c.returncode != 0:
                fired[p] = [l.strip()[:300] for l in c.stdout.splitlines() if l.startswith("  " + p + ":") or l.startswith("  eq:") or l.startswith("  C")][:4] or [("exit %d: " % c.returncode) + (c.stdout + c.stderr)[-300:]]
        return d, fired, meta
    finally:
        shutil.rmtree(s, ignore_errors=True)

with ThreadPoolExecutor(max_workers=6) as ex:
    for d, fired, meta in ex.map(one, dirs):
        if allc or fired != (meta.get("checks_fired") or {}):
            meta["checks_fired"] = fired if allc else fired
            meta["silent"] = not fired
            json.dump(meta, open(d + "/meta.json", "w"), indent=1, ensure_ascii=False)
        tag = os.path.basename(d)
        print(tag, "SILENT" if not fired else "FIRED " + " ".join(sorted(fired)))
        for p, ls in fired.items():
            for l in ls[:3]:
                print("     ", p, l[:260])
