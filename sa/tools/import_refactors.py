#!/usr/bin/env python3
"""import_refactors.py <agent out dir> <tag>: store the behaviour-preserving refactorings of one sub-agent under
/verif/refactors/<tag>-<k>/ (patch + meta); evaluate them afterwards with reeval_refactors.py <tag>- --all-checks."""
import glob, json, os, shutil, sys
out, tag = sys.argv[1], sys.argv[2]
for pf in sorted(glob.glob(os.path.join(out, "refactor_*.diff"))):
    k = os.path.basename(pf).split("_")[1].split(".")[0]
    mf = pf.replace(".diff", ".json")
    meta = json.load(open(mf)) if os.path.exists(mf) else {}
    d = "/verif/refactors/%s-%s" % (tag, k)
    os.makedirs(d, exist_ok=True)
    shutil.copy(pf, d + "/patch.diff")
    json.dump({"summary": meta.get("summary"), "kind": meta.get("kind"), "why_equivalent": meta.get("why_equivalent"), "suite_passes_debug": meta.get("suite_passes_debug"),
               "suite_passes_release": meta.get("suite_passes_release"), "checks_fired": {}, "silent": None,
               "source": "independent sub-agent asked for behaviour-preserving refactorings of one area"}, open(d + "/meta.json", "w"), indent=1, ensure_ascii=False)
    print("stored", d)
