#!/usr/bin/env python3
"""Regenerates the table of DESIGN.md §13.9 from evidence/<id>.json (run after a thorough run of every check)."""
import json, glob, os, re
rows = []
for f in sorted(glob.glob("/verif/evidence/C*.json")):
    e = json.load(open(f))
    rules = (e.get("coverage") or {}).get("rules") or []
    cells = ["%s (%s/%s)" % (r.get("rule") or r.get("id"), r.get("instances"), r.get("obligations")) for r in rules]
    rows.append("| %s | %s |" % (os.path.basename(f)[:-5], ", ".join(cells)))
p = "/verif/DESIGN.md"
s = open(p).read()
head = "| property | rules (instances / obligations) |\n|---|---|\n"
i = s.index(head) + len(head)
j = s.index("\n\n", i)
s = s[:i] + "\n".join(rows) + s[j:]
open(p, "w").write(s)
print("\n".join(rows))
