#!/usr/bin/env python3
"""Regenerates /verif/seeded/INDEX.md from the meta.json of every stored seeded change."""
import json, os, glob
rows = []
for d in sorted(glob.glob("/verif/seeded/*/")):
    m = os.path.join(d, "meta.json")
    if not os.path.exists(m):
        continue
    j = json.load(open(m))
    fired = j.get("checks_fired", {})
    rows.append((os.path.basename(d.rstrip("/")), j.get("breaks_property"), "yes" if j.get("caught") else "**no**", ", ".join(sorted(fired)) or "—",
                 (j.get("summary") or "").replace("|", "/")[:230], (j.get("needs_to_manifest") or "").replace("|", "/")[:200], j.get("note", "")))
with open("/verif/seeded/INDEX.md", "w") as f:
    f.write("# Seeded changes (independent sub-agents, property text only)\n\n")
    f.write("Each change compiles, passes the 66 existing tests and has a demonstration that fails with it and passes without (confirmed in a scratch worktree, see each meta.json).\n")
    f.write("`caught` = some registered check exits 1 on the patched tree; `checks` = which ones.\n\n")
    n = len(rows)
    c = sum(1 for r in rows if r[2] == "yes")
    f.write("**%d stored, %d caught, %d missed.**\n\n" % (n, c, n - c))
    f.write("| id | property | caught | checks that fire | change | needs | note |\n|---|---|---|---|---|---|---|\n")
    for r in rows:
        f.write("| %s | %s | %s | %s | %s | %s | %s |\n" % r)
print(open("/verif/seeded/INDEX.md").read()[:600])
