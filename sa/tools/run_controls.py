#!/usr/bin/env python3
"""run_controls.py [Cxx|control-id ...]: run (part of) the control catalogue in parallel against /repo; prints the controls that misbehave."""
import sys, os
sys.path.insert(0,'/verif/sa')
os.environ["SM9_CACHE_KEEP"]="80"
from controls import run
from concurrent.futures import ThreadPoolExecutor
sel = sys.argv[1:]
jobs = [(c, p) for c in run.CONTROLS for p in c["props"] if not sel or p in sel or c["id"] in sel]
def one(cp):
    c, p = cp
    return c, p, run.run_one(p, c, "/repo")
bad = 0
with ThreadPoolExecutor(max_workers=8) as ex:
    for c, p, (st, detail) in ex.map(one, jobs):
        if st != "ok":
            bad += 1
            print("BAD %-4s %-45s %-8s %s: %s" % (p, c["id"], c["expect"], st, detail[:260]))
print("controls run:", len(jobs), "bad:", bad)
