#!/usr/bin/env python3
"""eval_refactors.py <agent out dir> <tag>: run every check against each behaviour-preserving refactoring (scratch copy of /repo
+ refactor_k.diff). Anything that fires is a candidate false alarm to be triaged. Stores each under /verif/refactors/<tag>-<k>/."""
import glob, json, os, shutil, subprocess, sys, tempfile
out, tag = sys.argv[1], sys.argv[2]
ALL = ["C01", "C02", "C03", "C04", "C05", "C06", "C07", "C08", "C09", "C10", "C11", "C12", "C13", "C15", "C16", "C17", "C18"]
res = []
for pf in sorted(glob.glob(os.path.join(out, "refactor_*.diff"))):
    k = os.path.basename(pf).split("_")[1].split(".")[0]
    mf = pf.replace(".diff", ".json")
    meta = json.load(open(mf)) if os.path.exists(mf) else {}
    s = tempfile.mkdtemp(prefix="sm9ref.")
    try:
        subprocess.run(["rsync", "-a", "--exclude", "target", "--exclude", ".git", "/repo/", s + "/"], check=True)
        r = subprocess.run(["patch", "-p1", "-s", "-i", pf], cwd=s, capture_output=True, text=True)
        if r.returncode != 0:
            res.append({"k": k, "error": "patch does not apply"}); continue
        fired = {}
        for p in ALL:
            c = subprocess.run(["/verif/check", p, "--repo", s], capture_output=True, text=True, env=dict(os.environ, SM9_CONTROL_RUN="1"))
            if c.returncode != 0:
                fired[p] = [l.strip()[:260] for l in c.stdout.splitlines() if l.startswith("  " + p + ":") or l.startswith("  eq:") or l.startswith("  R-") or l.startswith("  C")][:3] or [("exit %d: " % c.returncode) + (c.stdout + c.stderr)[-200:]]
        d = "/verif/refactors/%s-%s" % (tag, k)
        os.makedirs(d, exist_ok=True)
        shutil.copy(pf, d + "/patch.diff")
        json.dump({"summary": meta.get("summary"), "kind": meta.get("kind"), "why_equivalent": meta.get("why_equivalent"), "suite_passes_debug": meta.get("suite_passes_debug"),
                   "suite_passes_release": meta.get("suite_passes_release"), "checks_fired": fired, "silent": not fired,
                   "source": "independent sub-agent asked for behaviour-preserving refactorings of one area"}, open(d + "/meta.json", "w"), indent=1, ensure_ascii=False)
        res.append({"k": k, "kind": meta.get("kind"), "summary": (meta.get("summary") or "")[:110], "fired": fired})
    finally:
        shutil.rmtree(s, ignore_errors=True)
print(json.dumps(res, indent=1, ensure_ascii=False))
