#!/bin/bash
# Builds the facts driver and warms the dependency caches for both profiles (offline).
set -euo pipefail
cd "$(dirname "$0")"
export CARGO_NET_OFFLINE=true
(cd sa/driver && cargo build --release --offline -q)
mkdir -p .cache evidence
sa/run_driver.sh dev .cache/warm-dev.json /repo
sa/run_driver.sh rel .cache/warm-rel.json /repo
rm -f .cache/warm-dev.json .cache/warm-rel.json
echo "setup ok"
